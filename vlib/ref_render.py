"""Independent float64 numpy reference renderers for the C01 / C05 statements.

Written from the property text only; nothing here imports sleap_nn (or torch).

Conventions (those of the properties): a keypoint is ``(x, y)`` in image pixels, a grid
cell ``(r, c)`` of a map with output stride ``s`` sits at image position
``(x, y) = (c*s, r*s)``; the grid is ``arange(0, size, s)``, so a size that is not a
multiple of the stride yields ``ceil(size/s)`` cells (callers that accept ``floor`` crop
the last row/column).  A keypoint with NaN in *either* coordinate is missing.

Public functions
    grid_vectors(H, W, stride)                     -> (xv[gw], yv[gh])
    ref_confmaps(points_xy, H, W, stride, sigma)   -> (n_nodes, gh, gw)
    ref_multi_confmaps(instances, H, W, stride, sigma) -> (n_nodes, gh, gw)
    ref_centroid_confmaps(centroids, H, W, stride, sigma) -> (1, gh, gw)
    ref_point_segment_distance(points, src, dst)   -> distances, shape points.shape[:-1]
    ref_cell_segment_distance(src, dst, H, W, stride) -> (gh, gw)
    nearest_cells(point_xy, H, W, stride)          -> list of (r, c) (ties included)
    ref_pafs(instances, edge_inds, H, W, stride, sigma, weight=None) -> (2E, gh, gw)
"""

from __future__ import annotations

import numpy as np


def grid_vectors(H: int, W: int, stride: int):
    """Image coordinates of the grid columns and rows: ``arange(0, size, stride)``."""
    xv = np.arange(0, int(W), int(stride), dtype=np.float64)
    yv = np.arange(0, int(H), int(stride), dtype=np.float64)
    return xv, yv


def is_missing(points_xy) -> np.ndarray:
    """True where a keypoint has a non-finite coordinate (shape points.shape[:-1])."""
    p = np.asarray(points_xy, dtype=np.float64)
    return ~np.isfinite(p).all(axis=-1)


def ref_confmaps(points_xy, H: int, W: int, stride: int, sigma: float) -> np.ndarray:
    """One Gaussian bump per keypoint, sampled on the stride grid.

    ``out[n, r, c] = exp(-((c*stride - x_n)^2 + (r*stride - y_n)^2) / (2 (sigma*stride)^2))``;
    an all-zero channel for a missing keypoint.  ``points_xy`` is ``(n_nodes, 2)``.
    """
    p = np.asarray(points_xy, dtype=np.float64).reshape(-1, 2)
    xv, yv = grid_vectors(H, W, stride)
    s = float(sigma) * float(stride)
    out = np.zeros((p.shape[0], yv.shape[0], xv.shape[0]), dtype=np.float64)
    miss = is_missing(p)
    for n in range(p.shape[0]):
        if miss[n]:
            continue
        d2 = (xv[None, :] - p[n, 0]) ** 2 + (yv[:, None] - p[n, 1]) ** 2
        out[n] = np.exp(-d2 / (2.0 * s * s))
    return out


def ref_multi_confmaps(instances, H: int, W: int, stride: int, sigma: float) -> np.ndarray:
    """Per-node, per-cell maximum over animals of :func:`ref_confmaps`.

    ``instances`` is ``(n_inst, n_nodes, 2)``; zero animals give all-zero maps.
    """
    inst = np.asarray(instances, dtype=np.float64)
    if inst.ndim != 3 or inst.shape[-1] != 2:
        raise ValueError(f"instances must be (n_inst, n_nodes, 2), got {inst.shape}")
    xv, yv = grid_vectors(H, W, stride)
    out = np.zeros((inst.shape[1], yv.shape[0], xv.shape[0]), dtype=np.float64)
    for a in range(inst.shape[0]):
        out = np.maximum(out, ref_confmaps(inst[a], H, W, stride, sigma))
    return out


def ref_centroid_confmaps(centroids, H: int, W: int, stride: int, sigma: float) -> np.ndarray:
    """Single channel holding the per-cell maximum over the centroids ``(n_inst, 2)``."""
    c = np.asarray(centroids, dtype=np.float64).reshape(-1, 1, 2)
    return ref_multi_confmaps(c, H, W, stride, sigma)


def ref_point_segment_distance(points, src, dst) -> np.ndarray:
    """Euclidean distance from each point to the closed segment ``[src, dst]``.

    ``points`` is ``(..., 2)``, ``src``/``dst`` are ``(2,)``.  A zero-length segment is the
    point ``src``.  Non-finite endpoints give NaN distances.
    """
    p = np.asarray(points, dtype=np.float64)
    a = np.asarray(src, dtype=np.float64).reshape(2)
    b = np.asarray(dst, dtype=np.float64).reshape(2)
    ab = b - a
    L2 = float(ab[0] * ab[0] + ab[1] * ab[1])
    ap = p - a
    if not np.isfinite(L2):
        return np.full(p.shape[:-1], np.nan)
    if L2 == 0.0:
        return np.hypot(ap[..., 0], ap[..., 1])
    t = (ap[..., 0] * ab[0] + ap[..., 1] * ab[1]) / L2
    t = np.clip(t, 0.0, 1.0)
    qx = ap[..., 0] - t * ab[0]
    qy = ap[..., 1] - t * ab[1]
    return np.hypot(qx, qy)


def cell_positions(H: int, W: int, stride: int) -> np.ndarray:
    """``(gh, gw, 2)`` array of the (x, y) image position of every grid cell."""
    xv, yv = grid_vectors(H, W, stride)
    xx, yy = np.meshgrid(xv, yv, indexing="xy")
    return np.stack([xx, yy], axis=-1)


def ref_cell_segment_distance(src, dst, H: int, W: int, stride: int) -> np.ndarray:
    """Distance of every grid cell to the segment, shape ``(gh, gw)``."""
    return ref_point_segment_distance(cell_positions(H, W, stride), src, dst)


def nearest_cells(point_xy, H: int, W: int, stride: int, rel_tol: float = 1e-9, grid_shape=None):
    """All grid cells ``(r, c)`` whose distance to the point is minimal (ties kept).

    Works for points outside the image (nearest cell is then on the border of the grid).
    ``grid_shape=(gh, gw)`` restricts the grid to its first gh rows / gw columns (for
    callers that accept a floor-sized map).
    """
    x, y = float(point_xy[0]), float(point_xy[1])
    xv, yv = grid_vectors(H, W, stride)
    if grid_shape is not None:
        yv, xv = yv[: grid_shape[0]], xv[: grid_shape[1]]
    dx = np.abs(xv - x)
    dy = np.abs(yv - y)
    cs = np.nonzero(dx <= dx.min() * (1 + rel_tol) + 1e-12)[0]
    rs = np.nonzero(dy <= dy.min() * (1 + rel_tol) + 1e-12)[0]
    return [(int(r), int(c)) for r in rs for c in cs]


def ref_pafs(instances, edge_inds, H: int, W: int, stride: int, sigma: float, weight=None) -> np.ndarray:
    """Ideal part-affinity fields, channels ``e0.x, e0.y, e1.x, ...``; animals add.

    ``weight(d)`` maps the distance-to-segment array to [0,1] (1 at d=0, non-increasing).
    The property fixes no formula for it; the default ``exp(-d^2 / (2 sigma^2))`` is a
    choice for rendering ideal network outputs and is NOT an oracle for C05.  Edges with a
    missing endpoint or zero length contribute nothing.
    """
    inst = np.asarray(instances, dtype=np.float64)
    if weight is None:

        def weight(d, s=float(sigma)):
            return np.exp(-(d**2) / (2.0 * s * s))

    cells = cell_positions(H, W, stride)
    E = len(edge_inds)
    out = np.zeros((2 * E, cells.shape[0], cells.shape[1]), dtype=np.float64)
    for a in range(inst.shape[0]):
        for e, (s_i, d_i) in enumerate(edge_inds):
            src, dst = inst[a, int(s_i)], inst[a, int(d_i)]
            if not (np.isfinite(src).all() and np.isfinite(dst).all()):
                continue
            v = dst - src
            L = float(np.hypot(v[0], v[1]))
            if L == 0.0:
                continue
            w = weight(ref_point_segment_distance(cells, src, dst))
            out[2 * e] += w * v[0] / L
            out[2 * e + 1] += w * v[1] / L
    return out
