"""Shared generators and brute-force references for the peak-finding properties C06 / C07.

Nothing here imports ``sleap_nn``.  Maps are produced as ``numpy.float32`` arrays and
serialised as nested lists of Python floats (every float32 is exactly representable as a
double, and ``json`` round-trips doubles exactly), so a case is a plain JSON document and
the oracle and the code under test see bit-identical values.

Value models (DESIGN.md C06/C07): iid floats, quantised levels (plateaus / ties), sums of
Gaussians, constant, single hot pixel (interior / edge / corner), several hot pixels on
borders and corners, negative-only, tied maxima on different rows AND columns, and a
seeded-numpy iid model for the larger maps.
"""

import math

import numpy as np

F32 = np.float32

# palette used by the quantised / hot / constant models: float32-exact, |v| <= 2, contains
# negatives, zero and the usual thresholds so that "value == threshold" happens by itself
PALETTE = [-2.0, -1.0, -0.5, -0.25, 0.0, float(F32(0.2)), 0.25, 0.5, 0.75, 1.0, 2.0]

SHAPE_CLASSES = ["1x1", "1xN", "Nx1", "small", "small", "small", "small", "medium", "medium", "large"]

LOCAL_MODELS = [
    "iid", "iid", "quant", "quant", "quant", "gauss", "gauss", "const", "hot", "border", "border",
    "negonly", "tiedmax", "mixed", "mixed",
]
GLOBAL_MODELS = [
    "iid", "iid", "quant", "quant", "gauss", "gauss", "const", "hot", "border", "border",
    "negonly", "tiedmax", "tiedmax", "tiedmax", "mixed", "mixed",
]
PER_MAP_MODELS = ["iid", "quant", "gauss", "const", "hot", "border", "negonly", "tiedmax"]


def f32(x):
    return float(F32(x))


def to_case_maps(arr):
    """(B,C,H,W) float32 array -> nested lists of python floats (exact)."""
    return np.asarray(arr, dtype=F32).astype(np.float64).tolist()


def from_case_maps(maps):
    return np.asarray(maps, dtype=np.float64).astype(F32)


# ----------------------------------------------------------------------------------
# brute-force references (written from the property statements)


def neighbour_max(m):
    """Per cell, the maximum over its existing neighbours among the eight (-inf if none)."""
    H, W = m.shape
    pad = np.full((H + 2, W + 2), -np.inf, dtype=np.float64)
    pad[1:-1, 1:-1] = m
    best = np.full((H, W), -np.inf, dtype=np.float64)
    for dy in (-1, 0, 1):
        for dx in (-1, 0, 1):
            if dy == 0 and dx == 0:
                continue
            best = np.maximum(best, pad[1 + dy : 1 + dy + H, 1 + dx : 1 + dx + W])
    return best


def brute_local_peaks(m, thr):
    """Cells of the 2-D float32 map `m` that exceed `thr` and are strictly greater than
    every existing neighbour among the (up to) eight.  Returns [(y, x)] in row-major order.
    (float32 -> float64 is exact, so the comparisons are the float32 comparisons.)"""
    m64 = m.astype(np.float64)
    mask = (m64 > thr) & (m64 > neighbour_max(m64))
    return [(int(y), int(x)) for y, x in zip(*np.nonzero(mask))]


def brute_local_peaks_loop(m, thr):
    """The same statement as four nested loops (used to cross-check the vectorised scan)."""
    H, W = m.shape
    out = []
    for y in range(H):
        for x in range(W):
            v = float(m[y, x])
            if not (v > thr):
                continue
            ok = True
            for dy in (-1, 0, 1):
                for dx in (-1, 0, 1):
                    if (dy or dx) and 0 <= y + dy < H and 0 <= x + dx < W and not (v > float(m[y + dy, x + dx])):
                        ok = False
            if ok:
                out.append((y, x))
    return out


def weak_local_max_ties(m, thr):
    """Number of cells above `thr` that are >= all neighbours and == at least one of them
    (exactly the cells on which '>' and '>=' disagree)."""
    m64 = m.astype(np.float64)
    return int(((m64 > thr) & (m64 == neighbour_max(m64))).sum())


def patch_reach(patch):
    """Half-width (in cells) of the map region an integral patch of size `patch` reads:
    odd p -> the (p-1)/2 ring, even p -> bilinear samples at +-0.5.. touch p/2 cells."""
    return patch // 2 if patch % 2 == 0 else (patch - 1) // 2


def window(m, y, x, r):
    """In-image part of the (2r+1)^2 window centred on cell (y, x)."""
    H, W = m.shape
    return m[max(0, y - r) : min(H, y + r + 1), max(0, x - r) : min(W, x + r + 1)]


def patch_class(m, y, x, patch):
    """'negative' if the refinement patch around (y,x) may contain a negative entry,
    'zero-mass' if everything it reads is exactly 0, else 'nonneg'.

    The patch is cropped by a perspective warp + bilinear sampling whose sample positions
    are accurate to ~1e-6 px, so a cell one ring outside the nominal footprint can leak in
    with weight ~1e-6.  The classification therefore looks at the nominal footprint
    dilated by one cell: 'nonneg' is then a guarantee (every patch entry is a convex
    combination of non-negative numbers and zero padding), 'negative' a possibility."""
    w = window(m, y, x, patch_reach(patch) + 1)
    if (w < 0).any():
        return "negative"
    if not (window(m, y, x, patch_reach(patch)) > 0).any():
        return "zero-mass"
    return "nonneg"


def cell_class(m, y, x):
    H, W = m.shape
    ey = y in (0, H - 1)
    ex = x in (0, W - 1)
    if ey and ex:
        return "corner"
    if ey or ex:
        return "edge"
    return "interior"


# ----------------------------------------------------------------------------------
# generators (hypothesis `draw` is passed in; hypothesis is imported by the caller)


def draw_shape(draw, st):
    cls = draw(st.sampled_from(SHAPE_CLASSES))
    if cls == "1x1":
        return cls, 1, 1
    if cls == "1xN":
        return cls, 1, draw(st.integers(2, 12))
    if cls == "Nx1":
        return cls, draw(st.integers(2, 12)), 1
    if cls == "small":
        return cls, draw(st.integers(2, 6)), draw(st.integers(2, 6))
    if cls == "medium":
        return cls, draw(st.integers(5, 12)), draw(st.integers(5, 12))
    return cls, draw(st.integers(13, 24)), draw(st.integers(13, 24))


def _border_cells(H, W):
    cells = []
    for y in range(H):
        for x in range(W):
            if y in (0, H - 1) or x in (0, W - 1):
                cells.append((y, x))
    return cells


def gen_map(draw, st, model, H, W):
    """One (H,W) float32 map of the given value model."""
    n = H * W
    if model == "iid":
        if n <= 40:
            vals = draw(st.lists(st.floats(-2.0, 2.0, width=32, allow_nan=False), min_size=n, max_size=n))
            return np.asarray(vals, dtype=F32).reshape(H, W)
        seed = draw(st.integers(0, 2**31 - 1))
        lo = draw(st.sampled_from([-2.0, -0.2, 0.0]))
        rs = np.random.RandomState(seed)
        return rs.uniform(lo, 2.0, size=(H, W)).astype(F32)
    if model == "quant":
        L = draw(st.integers(2, 5))
        levels = sorted(draw(st.lists(st.sampled_from(PALETTE), min_size=L, max_size=L, unique=True)))
        if n <= 64:
            idx = draw(st.lists(st.integers(0, L - 1), min_size=n, max_size=n))
            idx = np.asarray(idx).reshape(H, W)
        else:
            seed = draw(st.integers(0, 2**31 - 1))
            idx = np.random.RandomState(seed).randint(0, L, size=(H, W))
        return np.asarray(levels, dtype=F32)[idx]
    if model == "gauss":
        k = draw(st.integers(1, 4))
        yy, xx = np.mgrid[0:H, 0:W].astype(np.float64)
        m = np.zeros((H, W))
        ongrid = draw(st.booleans())
        first = None
        for i in range(k):
            if ongrid:
                cx = float(draw(st.integers(-1, W)))
                cy = float(draw(st.integers(-1, H)))
            else:
                cx = draw(st.floats(-1.0, float(W), allow_nan=False))
                cy = draw(st.floats(-1.0, float(H), allow_nan=False))
            sg = draw(st.sampled_from([0.6, 0.8, 1.0, 1.5, 2.0, 3.0]))
            amp = draw(st.sampled_from([0.3, 0.5, 1.0, 1.0, 1.5]))
            if first is None:
                first = (sg, amp)
            elif draw(st.integers(0, 2)) == 0:
                sg, amp = first  # twin bump -> exact ties when the layout is symmetric
            m += amp * np.exp(-((xx - cx) ** 2 + (yy - cy) ** 2) / (2 * sg * sg))
        m -= draw(st.sampled_from([0.0, 0.0, 0.0, 0.1, 0.5]))
        return m.astype(F32)
    if model == "const":
        return np.full((H, W), draw(st.sampled_from(PALETTE)), dtype=F32)
    if model == "hot":
        bg = draw(st.sampled_from([0.0, 0.0, 0.0, -1.0, 0.1, 0.25]))
        hv = draw(st.sampled_from([0.25, 0.5, 1.0, 1.0, 2.0, 0.0]))
        m = np.full((H, W), bg, dtype=F32)
        where = draw(st.sampled_from(["interior", "edge", "corner"]))
        if where == "corner":
            y = draw(st.sampled_from([0, H - 1]))
            x = draw(st.sampled_from([0, W - 1]))
        elif where == "edge":
            y, x = draw(st.sampled_from(_border_cells(H, W)))
        else:
            ylo, xlo = min(1, H - 1), min(1, W - 1)
            y = draw(st.integers(ylo, max(H - 2, ylo)))
            x = draw(st.integers(xlo, max(W - 2, xlo)))
        m[y, x] = hv
        return m
    if model == "border":
        bg = draw(st.sampled_from([0.0, 0.0, -0.5, 0.1]))
        m = np.full((H, W), bg, dtype=F32)
        cells = _border_cells(H, W)
        k = draw(st.integers(1, min(6, len(cells))))
        vals = [0.5, 1.0, 1.0, 2.0, 0.75]
        for _ in range(k):
            y, x = draw(st.sampled_from(cells))
            m[y, x] = draw(st.sampled_from(vals))
        # sometimes the four corners explicitly
        if draw(st.integers(0, 3)) == 0:
            for y in (0, H - 1):
                for x in (0, W - 1):
                    if draw(st.booleans()):
                        m[y, x] = draw(st.sampled_from(vals))
        return m
    if model == "negonly":
        if draw(st.booleans()) and n <= 64:
            L = draw(st.integers(1, 4))
            levels = sorted(draw(st.lists(st.sampled_from([-2.0, -1.0, -0.5, -0.25, -0.125]), min_size=L, max_size=L, unique=True)))
            idx = draw(st.lists(st.integers(0, L - 1), min_size=n, max_size=n))
            return np.asarray(levels, dtype=F32)[np.asarray(idx).reshape(H, W)]
        seed = draw(st.integers(0, 2**31 - 1))
        return np.random.RandomState(seed).uniform(-2.0, -0.001, size=(H, W)).astype(F32)
    if model == "tiedmax":
        # background strictly below the tied maximum
        seed = draw(st.integers(0, 2**31 - 1))
        bgk = draw(st.sampled_from(["zero", "rand", "quant", "neg"]))
        rs = np.random.RandomState(seed)
        if bgk == "zero":
            m = np.zeros((H, W), dtype=F32)
        elif bgk == "rand":
            m = rs.uniform(0.0, 0.9, size=(H, W)).astype(F32)
        elif bgk == "quant":
            m = np.asarray([0.0, 0.25, 0.5, 0.75], dtype=F32)[rs.randint(0, 4, size=(H, W))]
        else:
            m = rs.uniform(-1.0, -0.1, size=(H, W)).astype(F32)
        top = draw(st.sampled_from([1.0, 1.0, 2.0, 0.95]))
        if bgk == "neg" and draw(st.booleans()):
            top = -0.05
        k = draw(st.integers(2, 4))
        layout = draw(st.sampled_from(["anti", "anti", "any", "row", "col"]))
        cells = []
        if layout == "anti" and H >= 2 and W >= 2:
            # strictly increasing rows, strictly decreasing columns: the pair
            # (first column holding a max, first row holding a max) is NOT a max cell
            k = min(k, H, W)
            ys = sorted(draw(st.lists(st.integers(0, H - 1), min_size=k, max_size=k, unique=True)))
            xs = sorted(draw(st.lists(st.integers(0, W - 1), min_size=k, max_size=k, unique=True)), reverse=True)
            cells = list(zip(ys, xs))
        elif layout == "row":
            y = draw(st.integers(0, H - 1))
            xs = draw(st.lists(st.integers(0, W - 1), min_size=1, max_size=k, unique=True))
            cells = [(y, x) for x in xs]
        elif layout == "col":
            x = draw(st.integers(0, W - 1))
            ys = draw(st.lists(st.integers(0, H - 1), min_size=1, max_size=k, unique=True))
            cells = [(y, x) for y in ys]
        else:
            for _ in range(k):
                cells.append((draw(st.integers(0, H - 1)), draw(st.integers(0, W - 1))))
        for y, x in cells:
            m[y, x] = top
        return m.astype(F32)
    raise ValueError(model)


def draw_maps(draw, st, models, max_cells=700):
    """Draw (shape class, B, C, H, W, model, float32 array (B,C,H,W), per-map model names)."""
    shape_cls, H, W = draw_shape(draw, st)
    B = draw(st.integers(1, 3))
    C = draw(st.integers(1, 4))
    while B * C * H * W > max_cells and B * C > 1:
        if C > 1:
            C -= 1
        else:
            B -= 1
    model = draw(st.sampled_from(models))
    arr = np.zeros((B, C, H, W), dtype=F32)
    names = []
    for b in range(B):
        for c in range(C):
            mm = draw(st.sampled_from(PER_MAP_MODELS)) if model == "mixed" else model
            arr[b, c] = gen_map(draw, st, mm, H, W)
            names.append(mm)
    # float32 denormals underflow to 0 inside the bilinear crop (0.25 * 1.4e-45 -> 0), which would turn
    # a 'positive' patch into an all-zero one: magnitudes below 1e-30 are flushed to exactly 0
    arr[np.abs(arr) < 1e-30] = 0.0
    # a duplicated map inside the batch now and then (same map, different slot)
    if B * C > 1 and draw(st.integers(0, 7)) == 0:
        src = draw(st.integers(0, B * C - 1))
        dst = draw(st.integers(0, B * C - 1))
        arr[dst // C, dst % C] = arr[src // C, src % C]
    return shape_cls, B, C, H, W, model, arr


def draw_threshold(draw, st, arr):
    """Threshold class and value (always a float32-exact number, see ASSUMPTIONS)."""
    kind = draw(st.sampled_from(["-1", "0", "0.2", "0.2", "0.5", "entry", "entry", "mapmax"]))
    B, C, H, W = arr.shape
    if kind == "entry":
        b, c = draw(st.integers(0, B - 1)), draw(st.integers(0, C - 1))
        y, x = draw(st.integers(0, H - 1)), draw(st.integers(0, W - 1))
        return kind, float(arr[b, c, y, x])
    if kind == "mapmax":
        b, c = draw(st.integers(0, B - 1)), draw(st.integers(0, C - 1))
        return kind, float(arr[b, c].max())
    return kind, f32(float(kind))


def next_below(v):
    return float(np.nextafter(F32(v), F32(-np.inf)))


def gaussian_bump(H, W, cx, cy, sigma, amp=1.0):
    yy, xx = np.mgrid[0:H, 0:W].astype(np.float64)
    return (amp * np.exp(-((xx - cx) ** 2 + (yy - cy) ** 2) / (2.0 * sigma * sigma))).astype(F32)


# ----------------------------------------------------------------------------------
# input DTYPE axis (C06 / C07 part "dtypes"): the peak finders accept maps of every floating point
# type.  A case keeps its maps as exact doubles that are representable in the map's dtype; the
# oracles are evaluated on those doubles (numpy float64), i.e. "in the map's own dtype".

DTYPES = ["float32", "float64", "float16", "bfloat16"]
# unit roundoff spacing at 1.0 (distance between neighbouring representable numbers in [1, 2))
DTYPE_EPS = {"float64": 2.0**-52, "float32": 2.0**-23, "float16": 2.0**-10, "bfloat16": 2.0**-7}
# relative differences "only this dtype can represent": two candidate maxima / maximum vs threshold
DTYPE_DELTAS = {
    "float64": [1e-9, 1e-10, 1e-10, 1e-11, 1e-12, 1e-12, 1e-13, 2.0**-52],
    "float32": [2.0**-23, 2.0**-22, 2.0**-21],
    "float16": [2.0**-10, 2.0**-9, 2.0**-8],
    "bfloat16": [2.0**-7, 2.0**-6],
}
# magnitudes far below the usual value range (float64: below float32's range altogether)
DTYPE_TINY = {
    "float64": [1e-45, 1e-47, 1e-50, 1e-50, 1e-55, 1e-60],
    "float32": [1e-20, 1e-30],
    "float16": [2.0**-9],
    "bfloat16": [1e-20, 1e-30],
}
DTYPE_GENERIC_MODELS = ["iid", "quant", "gauss", "tiedmax", "border"]
DTYPE_SPECIAL_MODELS = ["neartie", "nearthr", "tiny"]
# (dtype, value model) is ONE choice.  float64 carries the models only float64 can represent with
# extra weight; the other dtypes get the same models at their own resolution.
DTYPE_MODEL_PAIRS = (
    [("float64", m) for m in DTYPE_GENERIC_MODELS]
    + [("float64", m) for m in DTYPE_SPECIAL_MODELS for _ in range(4)]
    + [("float32", m) for m in DTYPE_GENERIC_MODELS[:3] + DTYPE_SPECIAL_MODELS]
    + [("float16", m) for m in ["iid", "gauss", "tiedmax"] + DTYPE_SPECIAL_MODELS]
    + [("bfloat16", m) for m in ["iid", "gauss", "tiedmax"] + DTYPE_SPECIAL_MODELS]
)


def round_to_dtype(a, dtype):
    """float64 array holding `a` rounded to the nearest number representable in `dtype`."""
    a = np.asarray(a, dtype=np.float64)
    if dtype == "float64":
        return a.copy()
    if dtype == "float32":
        return a.astype(F32).astype(np.float64)
    if dtype == "float16":
        return a.astype(np.float16).astype(np.float64)
    if dtype == "bfloat16":
        bits = np.ascontiguousarray(a.astype(F32)).view(np.uint32).astype(np.uint64)
        bits = (bits + 0x7FFF + ((bits >> 16) & 1)) & 0xFFFF0000  # round to nearest even on the upper 16 bits
        return bits.astype(np.uint32).view(F32).astype(np.float64).reshape(a.shape)
    raise ValueError(dtype)


def round_scalar(v, dtype):
    return float(round_to_dtype(np.asarray([v]), dtype)[0])


def to_tensor(arr64, dtype, torch):
    """A new contiguous tensor of the given dtype holding exactly the doubles of `arr64`."""
    t = torch.from_numpy(np.ascontiguousarray(arr64, dtype=np.float64).copy()).to(getattr(torch, dtype))
    if not np.array_equal(t.to(torch.float64).numpy(), arr64):
        raise ValueError(f"case values are not representable in {dtype}")
    return t


def out_to_numpy(t, torch):
    """Any floating / integer output tensor as a float64 / int64 numpy array (bfloat16 has no numpy type)."""
    t = t.detach().cpu()
    return (t.to(torch.float64) if t.is_floating_point() else t.to(torch.int64)).numpy().copy()


def value_tol(dtype, v):
    """Allowed |reported value - map value|.  The functions document float32 outputs: a float64 map
    value may legitimately come back rounded to float32 (one float32 spacing at |v|, the denormal
    spacing for magnitudes below float32's range).  float32 / float16 / bfloat16 values are exact in
    float32 and in their own dtype, so nothing may be lost."""
    if dtype != "float64":
        return 0.0
    return float(np.spacing(F32(min(abs(float(v)), 3e38))))


def top_gap_class(m):
    """Relative distance between the two largest DISTINCT values of a map, as a coarse class."""
    mx = m.max()
    rest = m[m < mx]
    if rest.size == 0 or mx == 0:
        return None
    g = (mx - rest.max()) / abs(mx)
    return "<1e-12" if g < 1e-12 else ("<2^-23" if g < 2.0**-23 else ("<1e-2" if g < 1e-2 else None))


def thr_gap_class(mx, thr):
    """Maximum vs threshold: 'equal', 'above/below by a relative distance < ...', or None."""
    if mx == thr:
        return "max==thr"
    if thr == 0:
        return None
    g = abs(mx - thr) / abs(thr)
    side = "above" if mx > thr else "below"
    return f"max-{side}-thr-by<1e-12" if g < 1e-12 else (f"max-{side}-thr-by<2^-23" if g < 2.0**-23 else (f"max-{side}-thr-by<1e-2" if g < 1e-2 else None))


def _dtype_map(draw, st, dtype, model, H, W, thr):
    """One (H,W) float64 map (not yet rounded to dtype) of a dtype-axis value model."""
    n = H * W
    if model == "iid":  # full precision doubles, not float32-exact ones
        rs = np.random.RandomState(draw(st.integers(0, 2**31 - 1)))
        return rs.uniform(draw(st.sampled_from([-2.0, -0.2, 0.0])), 2.0, size=(H, W))
    if model in DTYPE_GENERIC_MODELS:
        return gen_map(draw, st, model, H, W).astype(np.float64)
    deltas = DTYPE_DELTAS[dtype]
    rs = np.random.RandomState(draw(st.integers(0, 2**31 - 1)))
    bgk = draw(st.sampled_from(["zero", "rand", "rand", "bump"]))
    if model == "neartie":
        # k candidate maxima top*(1 - j*delta), j = 0..k-1, handed to the cells in a drawn order (the
        # true maximum is as often the last candidate in row-major order as the first); the second
        # candidate is an 8-neighbour of the first half of the time (adjacent near-tie)
        top = draw(st.sampled_from([1.0, 0.9, 0.6, 0.75, 1.5, 0.3]))
        k = min(draw(st.integers(2, 4)), n)
        cells = [(draw(st.integers(0, H - 1)), draw(st.integers(0, W - 1)))]
        if draw(st.booleans()):
            y0, x0 = cells[0]
            nb = [(y0 + dy, x0 + dx) for dy in (-1, 0, 1) for dx in (-1, 0, 1) if (dy or dx) and 0 <= y0 + dy < H and 0 <= x0 + dx < W]
            if nb:
                cells.append(draw(st.sampled_from(nb)))
        while len(cells) < k:
            c = (draw(st.integers(0, H - 1)), draw(st.integers(0, W - 1)))
            if c not in cells:
                cells.append(c)
            elif n <= len(cells):
                break
        delta = draw(st.sampled_from(deltas))
        order = draw(st.permutations(list(range(len(cells)))))
        vals = [top * (1.0 - j * delta) for j in order]
        if bgk == "zero":
            m = np.zeros((H, W))
        elif bgk == "rand":
            m = rs.uniform(0.0, 0.9 * top, size=(H, W))
        else:
            yy, xx = np.mgrid[0:H, 0:W].astype(np.float64)
            sg = draw(st.sampled_from([0.6, 1.0, 1.5]))
            m = np.zeros((H, W))
            for (y, x), v in zip(cells, vals):
                m = np.maximum(m, 0.97 * v * np.exp(-((xx - x) ** 2 + (yy - y) ** 2) / (2 * sg * sg)))
        for (y, x), v in zip(cells, vals):
            m[y, x] = v
        return m
    if model == "nearthr":
        # maximum = thr*(1 + s*delta): just above (valid), just below (no peak) or equal
        s = draw(st.sampled_from([1, 1, -1, -1, -1, 0]))
        delta = draw(st.sampled_from(deltas))
        mx = thr * (1.0 + s * delta)
        y, x = draw(st.integers(0, H - 1)), draw(st.integers(0, W - 1))
        if bgk == "zero":
            m = np.zeros((H, W))
        elif bgk == "rand":
            m = rs.uniform(0.0, 0.9, size=(H, W)) * mx
        else:
            yy, xx = np.mgrid[0:H, 0:W].astype(np.float64)
            sg = draw(st.sampled_from([0.6, 1.0, 1.5]))
            m = 0.97 * mx * np.exp(-((xx - x) ** 2 + (yy - y) ** 2) / (2 * sg * sg))
        m[y, x] = mx
        if n > 1 and draw(st.integers(0, 3)) == 0:  # a second cell holding the same maximum
            m[draw(st.integers(0, H - 1)), draw(st.integers(0, W - 1))] = mx
        return m
    raise ValueError(model)


def draw_dtype_maps(draw, st, dtype, model):
    """Maps of the dtype axis.  Returns (B, C, H, W, float64 array exactly representable in `dtype`,
    threshold kind, threshold).  The threshold is a number representable in the map's dtype (torch
    compares the map with the Python scalar in the map's dtype), for float64 any double."""
    # float16 maps are at least 2x2: kornia's homography normalisation divides by (size - 1 + 1e-14) and
    # 1e-14 underflows to 0 in half precision, so the integral refinement of a one-cell-wide float16 map
    # raises inside kornia (a degenerate shape x reduced precision artefact, not a clause of C06/C07)
    if dtype != "float16" and draw(st.integers(0, 5)) == 0:
        H, W = draw(st.sampled_from([(1, draw(st.integers(1, 9))), (draw(st.integers(2, 9)), 1)]))
    else:
        H, W = draw(st.integers(2, 9)), draw(st.integers(2, 9))
    B = draw(st.integers(1, 2))
    C = draw(st.integers(1, 3))
    scale = 1.0
    base = model
    if model == "tiny":
        scale = draw(st.sampled_from(DTYPE_TINY[dtype]))
        base = draw(st.sampled_from(["iid", "gauss", "neartie", "neartie", "nearthr"]))
    thr_kind = draw(st.sampled_from(["0.5", "0.2", "0.2", "0.25", "0.1", "1"] if base == "nearthr" else ["-1", "0", "0.2", "0.2", "0.5", "entry", "mapmax"]))
    thr = None if thr_kind in ("entry", "mapmax") else round_scalar(float(thr_kind), dtype)
    arr = np.zeros((B, C, H, W))
    for b in range(B):
        for c in range(C):
            arr[b, c] = _dtype_map(draw, st, dtype, base, H, W, thr)
    arr = round_to_dtype(arr * scale, dtype)
    if thr is None:
        b, c = draw(st.integers(0, B - 1)), draw(st.integers(0, C - 1))
        thr = float(arr[b, c].max()) if thr_kind == "mapmax" else float(arr[b, c, draw(st.integers(0, H - 1)), draw(st.integers(0, W - 1))])
    elif scale != 1.0:
        # the threshold moves with the magnitude of the values (or lies far below it)
        thr = round_scalar(thr * scale * (1.0 if base == "nearthr" else draw(st.sampled_from([1.0, 1.0, 1.0, 1e-10]))), dtype)
    # now and then a channel pushed clearly below the threshold (mixed valid / invalid channels)
    if B * C > 1 and draw(st.integers(0, 2)) == 0:
        for b in range(B):
            for c in range(C):
                if draw(st.integers(0, 2)) == 0:
                    arr[b, c] = round_to_dtype(arr[b, c] - (arr[b, c].max() - thr) - scale * draw(st.sampled_from([0.5, 0.25])), dtype)
    return B, C, H, W, arr, thr_kind + ("" if scale == 1.0 else "*tiny"), float(thr)
